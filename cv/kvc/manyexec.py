"""Engine A: the multi-way union `set_union_merge_many` (C08 / C09) - extension of the kernel executor.

Adds to `KernelExec` what this one function needs:

  * a list-of-arrays parameter.  After the filter comprehension `[arr for arr in arrays if len(arr)]` the list is
    described by ghost symbols of the sidecar:  K (number of non-empty arrays), L(a) >= 1 (their lengths),
    E(a, i) (their elements), CS(a) = L(0) + ... + L(a-1) (segment starts in the concatenation);
  * library axioms (assumed, probed): numpy.concatenate(list) lays the arrays out back to back
    (values[CS(a) + i] == E(a, i); every position q belongs to segment seg(q)); numpy.array([...], dtype=int),
    numpy.cumsum and elementwise subtraction of int arrays, each as an element-wise definition;
  * ghost function psum(P, j) = sum_{a<j} (P[a] - CS(a))  ("how many elements the pointers P have consumed in the
    first j arrays") with its recursion axioms, the predicate seg_ok(P) ("every pointer inside its own segment") and
    three lemmas - psum after a single store; 0 <= psum <= total; psum < total when some pointer is not at its
    limit.  The lemmas' induction STEPS are discharged as obligations (`lemma-*`); the induction principle itself is
    the only thing assumed.  They are what bounds the output write `result_view[result_len]` by the allocation.
"""
import ast

import z3

from . import kexec
from .kexec import ArrRef, IntV, KernelExec, Obl, Unsupported
from .spec import Arr

AS = z3.ArraySort(z3.IntSort(), z3.IntSort())


class ListV:
    def __init__(self, filtered):
        self.filtered = filtered


class LensSeq:
    pass


class Ghost:
    def __init__(self):
        self.K = z3.Int("K")
        self.L = z3.Function("L", z3.IntSort(), z3.IntSort())
        self.CS = z3.Function("CS", z3.IntSort(), z3.IntSort())
        self.E = z3.Function("E", z3.IntSort(), z3.IntSort(), z3.IntSort())
        self.seg = z3.Function("seg", z3.IntSort(), z3.IntSort())
        self.psum = z3.Function("psum", AS, z3.IntSort(), z3.IntSort())
        self.seg_ok = z3.Function("seg_ok", AS, z3.BoolSort())
        K, L, CS, psum, seg_ok = self.K, self.L, self.CS, self.psum, self.seg_ok
        a, b, j, m, v = z3.Ints("a!g b!g j!g m!g v!g")
        P = z3.Const("P!g", AS)
        self.defs = [
            CS(0) == 0,
            z3.ForAll([a], z3.Implies(a >= 0, CS(a + 1) == CS(a) + L(a)), patterns=[CS(a + 1)]),
            z3.ForAll([a], z3.Implies(z3.And(0 <= a, a < K), L(a) >= 1), patterns=[L(a)]),
            z3.ForAll([P], psum(P, 0) == 0, patterns=[psum(P, 0)]),
            z3.ForAll([P, j], z3.Implies(j >= 0, psum(P, j + 1) == psum(P, j) + z3.Select(P, j) - CS(j)), patterns=[psum(P, j + 1)]),
            z3.ForAll([P], seg_ok(P) == z3.ForAll([a], z3.Implies(z3.And(0 <= a, a < K), z3.And(CS(a) <= z3.Select(P, a), z3.Select(P, a) <= CS(a + 1)))),
                      patterns=[seg_ok(P)]),
        ]
        self.lemmas = {
            "CS-monotone": z3.ForAll([a, b], z3.Implies(z3.And(0 <= a, a <= b, b <= K), CS(a) <= CS(b)), patterns=[z3.MultiPattern(CS(a), CS(b))]),
            "psum-after-store": z3.ForAll([P, m, v, j], z3.Implies(j >= 0, psum(z3.Store(P, m, v), j) ==
                                                                   psum(P, j) + z3.If(z3.And(0 <= m, m < j), v - z3.Select(P, m), 0)),
                                          patterns=[psum(z3.Store(P, m, v), j)]),
            "psum-bounded": z3.ForAll([P, j], z3.Implies(z3.And(seg_ok(P), 0 <= j, j <= K), z3.And(0 <= psum(P, j), psum(P, j) <= CS(j))),
                                      patterns=[psum(P, j)]),
            "psum-strict": z3.ForAll([P, m, j], z3.Implies(z3.And(seg_ok(P), 0 <= m, m < j, j <= K, z3.Select(P, m) < CS(m + 1)), psum(P, j) < CS(j)),
                                     patterns=[z3.MultiPattern(psum(P, j), z3.Select(P, m))]),
        }

    def hypotheses(self):
        return list(self.defs) + list(self.lemmas.values())

    def lemma_steps(self, prefix):
        """Induction steps of the four lemmas (fresh constants; hypotheses = the definitions + the induction hypothesis)."""
        K, L, CS, psum, seg_ok = self.K, self.L, self.CS, self.psum, self.seg_ok
        a, b, j, m, v = z3.Ints("a!s b!s j!s m!s v!s")
        P = z3.Const("P!s", AS)
        P2 = z3.Store(P, m, v)
        D = list(self.defs)
        out = []
        out.append(Obl(prefix + "/lemma-CS-monotone-base", "lemma", D + [0 <= a, a <= K], CS(a) <= CS(a)))
        out.append(Obl(prefix + "/lemma-CS-monotone-step", "lemma", D + [0 <= a, a <= b, b < K, CS(a) <= CS(b)], CS(a) <= CS(b + 1)))
        st = lambda jj: psum(P2, jj) == psum(P, jj) + z3.If(z3.And(0 <= m, m < jj), v - z3.Select(P, m), 0)  # noqa
        out.append(Obl(prefix + "/lemma-psum-after-store-base", "lemma", D, st(z3.IntVal(0))))
        out.append(Obl(prefix + "/lemma-psum-after-store-step", "lemma", D + [j >= 0, st(j)], st(j + 1)))
        bd = lambda jj: z3.And(0 <= psum(P, jj), psum(P, jj) <= CS(jj))  # noqa
        out.append(Obl(prefix + "/lemma-psum-bounded-base", "lemma", D + [seg_ok(P)], bd(z3.IntVal(0))))
        out.append(Obl(prefix + "/lemma-psum-bounded-step", "lemma", D + [seg_ok(P), 0 <= j, j < K, bd(j)], bd(j + 1)))
        # strict: for m < j+1 either m < j (induction hypothesis) or m == j (the bounded lemma at j)
        out.append(Obl(prefix + "/lemma-psum-strict-step", "lemma",
                       D + [seg_ok(P), 0 <= m, m < j + 1, j < K, 0 <= j, z3.Select(P, m) < CS(m + 1), bd(j),
                            z3.Implies(m < j, psum(P, j) < CS(j))], psum(P, j + 1) < CS(j + 1)))
        return out


class ManyExec(KernelExec):
    def __init__(self, norm, fname, contract, module="set_operations"):
        super().__init__(norm, fname, contract, callees=None, module=module)
        self.g = Ghost()
        self.defn = {}

    # ---- clause environment: ghost symbols of the sidecar
    def spec_env(self, st, extra=None):
        env = super().spec_env(st, extra)
        g = self.g
        env.update({
            "K": g.K,
            "L": lambda a: g.L(a), "CS": lambda a: g.CS(a), "E": lambda a, i: g.E(a, i),
            "psum": lambda P, j: g.psum(P.a if isinstance(P, Arr) else P, j),
            "seg_ok": lambda P: g.seg_ok(P.a if isinstance(P, Arr) else P),
        })
        return env

    def defined_arr(self, st, base, length, elem, fn, pc):
        r = self.new_arr(st, base, length, elem, pc=pc)
        A = st.arr[r.key]
        q = z3.Int("q!d%d" % next(self.fresh))
        pc.append(z3.ForAll([q], z3.Implies(z3.And(0 <= q, q < length), z3.Select(A.a, q) == fn(q)), patterns=[z3.Select(A.a, q)]))
        self.defn[r.key] = fn
        return r

    # ---- expressions
    def ev(self, e, st, pc):
        g = self.g
        if isinstance(e, ast.UnaryOp) and isinstance(e.op, ast.USub) and isinstance(e.operand, ast.Constant) and isinstance(e.operand.value, int):
            return IntV(z3.IntVal(-e.operand.value), "pyint")
        if isinstance(e, ast.ListComp) and len(e.generators) == 1:
            gen = e.generators[0]
            src = self.ev(gen.iter, st, pc) if isinstance(gen.iter, ast.Name) and gen.iter.id in st.v else None
            t = ast.unparse(e).replace(" ", "")
            if isinstance(src, ListV) and not src.filtered and t == "[arrforarrin%sif len(arr)]".replace(" ", "") % gen.iter.id:
                # the non-empty members, in order: K arrays of length L(a) >= 1 with elements E(a, i)
                pc.extend(g.hypotheses())
                pc.append(g.K >= 0)
                return ListV(True)
            if isinstance(src, ListV) and src.filtered and t == "[arr.shape[0]forarrin%s]" % gen.iter.id:
                return LensSeq()
            raise Unsupported("list comprehension %s" % ast.unparse(e))
        if isinstance(e, ast.BinOp) and isinstance(e.op, ast.Sub):
            a, b = self.ev(e.left, st, pc), self.ev(e.right, st, pc)
            if isinstance(a, ArrRef) and isinstance(b, ArrRef):
                if a.key not in self.defn or b.key not in self.defn:
                    raise Unsupported("array arithmetic on arrays without element-wise definition")
                fa, fb = self.defn[a.key], self.defn[b.key]
                A, B = st.arr[a.key], st.arr[b.key]
                self.ob("array-shapes-agree", pc, A.len == B.len, ast.unparse(e))
                return self.defined_arr(st, "diff", A.len, "int64", lambda q: fa(q) - fb(q), pc)
            if isinstance(a, IntV) and isinstance(b, IntV):
                return self.arith(e.op, a, b, pc, "%s @L%d" % (ast.unparse(e), e.lineno))
            raise Unsupported("subtraction operands")
        if isinstance(e, ast.Name) and e.id in st.v and isinstance(st.v[e.id], (ListV, LensSeq)):
            return st.v[e.id]
        return super().ev(e, st, pc)

    def call(self, e, st, pc):
        g = self.g
        f = ast.unparse(e.func)
        if f == "len" and len(e.args) == 1:
            a = self.ev(e.args[0], st, pc)
            if isinstance(a, ListV) and a.filtered:
                return IntV(g.K, "pyint")
        if f == "numpy.concatenate" and len(e.args) == 1 and not e.keywords:
            a = self.ev(e.args[0], st, pc)
            if isinstance(a, ListV) and a.filtered:
                T = g.CS(g.K)
                r = self.new_arr(st, "values", T, "uint32", pc=pc)
                V = st.arr[r.key]
                x, i, q = z3.Ints("a!c i!c q!c")
                # library axiom (assumed, probed): back-to-back layout, and every position lies in exactly one segment
                pc.append(z3.ForAll([x, i], z3.Implies(z3.And(0 <= x, x < g.K, 0 <= i, i < g.L(x)), z3.Select(V.a, g.CS(x) + i) == g.E(x, i)),
                                    patterns=[g.E(x, i)]))
                pc.append(z3.ForAll([q], z3.Implies(z3.And(0 <= q, q < T), z3.And(0 <= g.seg(q), g.seg(q) < g.K, g.CS(g.seg(q)) <= q,
                                                                                    q < g.CS(g.seg(q) + 1),
                                                                                    z3.Select(V.a, q) == g.E(g.seg(q), q - g.CS(g.seg(q))))),
                                    patterns=[g.seg(q), z3.Select(V.a, q)]))
                pc.append(z3.ForAll([x, q], z3.Implies(z3.And(0 <= x, x < g.K, g.CS(x) <= q, q < g.CS(x + 1)),
                                                       z3.Select(V.a, q) == g.E(x, q - g.CS(x))),
                                    patterns=[z3.MultiPattern(z3.Select(V.a, q), g.CS(x))]))
                return r
        if f == "numpy.array" and len(e.args) == 1 and len(e.keywords) == 1 and e.keywords[0].arg == "dtype" \
                and ast.unparse(e.keywords[0].value) == "int":
            a = self.ev(e.args[0], st, pc)
            if isinstance(a, LensSeq):
                return self.defined_arr(st, "lens", g.K, "int64", lambda q: g.L(q), pc)
        if f == "numpy.cumsum" and len(e.args) == 1 and not e.keywords:
            a = self.ev(e.args[0], st, pc)
            if isinstance(a, ArrRef) and a.key in self.defn and st.arr[a.key].name.startswith("lens"):
                # cumulative sums of the length array are the segment limits CS(a + 1)  (library axiom, probed)
                return self.defined_arr(st, "cumsum", st.arr[a.key].len, "int64", lambda q: g.CS(q + 1), pc)
        return super().call(e, st, pc)

    # ---- entry
    def run(self):
        st, pc = kexec.State(), []
        params = [a.arg for a in self.fn.args.args]
        if len(params) != 1:
            raise Unsupported("expected one list parameter")
        st.v[params[0]] = ListV(False)
        reqs = self.c["requires"]
        # `requires` speak about the ghost symbols, which come into existence at the filter comprehension: they are
        # assumed right after it (the first statement); until then nothing is known
        body = [s for s in self.fn.body if not (isinstance(s, ast.Expr) and isinstance(s.value, ast.Constant))]
        first = body[0]
        outs = self.stmt(first, st, pc)
        if len(outs) != 1 or outs[0][0] != "fall":
            raise Unsupported("first statement must be the filter comprehension")
        _, st, pc, _ = outs[0]
        for r in reqs:
            pc.append(self.clause(r, st))
        self.ob("canary", pc, z3.BoolVal(False), label="canary@entry")
        self.obls += self.g.lemma_steps("%s.%s" % (self.module, self.fname))
        for kind, st1, pc1, ret in self.block(body[1:], st, pc):
            if kind == "fall":
                kind, ret = "return", kexec.NONE
            if kind != "return" or not isinstance(ret, ArrRef):
                raise Unsupported("path ends in %s" % kind)
            p = next(self.path_ctr)
            env = self.spec_env(st1, {"out": st1.arr[ret.key]})
            self.ob("canary", pc1, z3.BoolVal(False), label="canary@return-p%d" % p)
            from .spec import conjuncts, to_z3

            for ci, cl in enumerate(self.c["ensures"]):
                for cj, part in enumerate(conjuncts(cl, self.macros)):
                    self.ob("post", pc1, to_z3(part, env, self.macros), label="post@p%d.%d.%d" % (p, ci, cj))
        return self.obls
