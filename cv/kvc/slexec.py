"""Engine A, the recursion of iindex.slices1d (C13 proved part).

The real `slices1d` (ast.parse of the working tree's iindexes.py) is executed abstractly, once per case of its contract
(no extra axis / at least one), and every obligation below is generated from that execution.

Contract of `X.slices1d(base_coords=())` for a well-formed index X of shape (N, e_1, ..., e_m), whose keys are
(k0, c_1, ..., c_m) with 0 <= c_i < e_i (induction over m; the recursive call is on an index with one axis fewer):

  ensures  for EVERY tuple T = (t_1, ..., t_m) of integers the generator yields a pair with coordinates T + base_coords
           exactly once if 0 <= t_i < e_i for all i, never otherwise; nothing else is yielded; the index yielded with
           T + base_coords has shape (N,), X's common value, and for every k0 the entry (k0,) exactly when X has the key
           (k0,) + T, holding that key's row-id array.

Abstraction.  A key of X is (k0, MID, l): head, an abstract middle segment of m-1 coordinates, last coordinate.  The
target is T = (TMID, tl).  Values are small abstract objects (shape with k trailing axes dropped, the list of per-last-
coordinate dicts, a sub-index built from one of them, coordinate tuples as lists of segments); conditions that depend on m
are decided by the case.  Loop rules (assumed, as for C06 / C14): `for coords, rowids in self.items()` runs its body once
per key - the body is executed for one arbitrary key and must be exactly "file this key's rows under its last coordinate,
keyed by the rest"; `for coord, subentries in enumerate(buckets)` runs its body once per position 0 <= coord < e_m - the
body is executed for one arbitrary position, `only-own-position-contributes` shows that position c yields the target only
when c == tl.  `iindex(entries, common, shape)` enters by its constructor contract (stores the three as given; assumed).
"""
import ast
import itertools

import z3

from .kexec import Obl


class Unsupported(Exception):
    pass


_ids = itertools.count()


class Tok:
    def __init__(self, kind, **kw):
        self.kind = kind
        self.__dict__.update(kw)

    def __repr__(self):
        return "<%s %s>" % (self.kind, {k: v for k, v in self.__dict__.items() if k != "kind"})


class SlExec:
    def __init__(self, fn, case):
        a = fn.args
        if len(a.args) != 2 or len(a.defaults) != 1 or not (isinstance(a.defaults[0], ast.Tuple) and not a.defaults[0].elts) or a.vararg or a.kwarg or a.kwonlyargs:
            raise Unsupported("slices1d no longer takes (self, base_coords=())")
        self.fn, self.case = fn, case  # case: "axes" (m >= 1) | "flat" (m == 0)
        self.m = z3.Int("m")
        self.L = z3.Int("L")  # extent of the last axis
        self.hyps = [self.m >= 1 if case == "axes" else self.m == 0, self.L >= 0]
        self.env0 = {a.args[0].arg: Tok("self"), a.args[1].arg: Tok("coords", segs=(("B",),))}
        self.yields = []  # dicts: kind direct|ih, pc, pos (z3 Int or None), ...
        self.struct = []  # (name, ok: bool, text): structural obligations met on the way
        self.solver = z3.Solver()
        self.solver.set("timeout", 5000)

    def implied(self, pc, c):
        self.solver.push()
        self.solver.add(*self.hyps, *pc, z3.Not(c))
        r = self.solver.check()
        self.solver.pop()
        return r == z3.unsat

    # ------------------------------------------------------------ expressions
    def ev(self, e, env, pc):
        if isinstance(e, ast.Constant) and (e.value is None or isinstance(e.value, int)):
            return e.value
        if isinstance(e, ast.Name):
            if e.id in env:
                return env[e.id]
            if e.id in ("len", "range", "enumerate", "iindex"):
                return Tok("builtin", name=e.id)
            raise Unsupported("unbound name %s" % e.id)
        if isinstance(e, ast.UnaryOp) and isinstance(e.op, ast.USub):
            v = self.ev(e.operand, env, pc)
            if isinstance(v, int):
                return -v
            raise Unsupported(ast.unparse(e))
        if isinstance(e, ast.Attribute):
            o = self.ev(e.value, env, pc)
            if isinstance(o, Tok) and o.kind == "self":
                if e.attr == "shape":
                    return Tok("shape", drop=0)
                if e.attr == "common":
                    return Tok("common")
                if e.attr in ("items", "rowid_dtype"):
                    return Tok("method", name=e.attr, of=o)
            if isinstance(o, Tok) and o.kind == "subindex" and e.attr == self.fn.name:
                return Tok("method", name="slices1d", of=o)
            if isinstance(o, Tok) and o.kind == "self" and e.attr == self.fn.name:
                return Tok("method", name="slices1d", of=o)
            raise Unsupported(ast.unparse(e))
        if isinstance(e, ast.Tuple):
            segs = []
            for x in e.elts:
                v = self.ev(x, env, pc)
                if isinstance(v, int) and not isinstance(v, bool):
                    v = z3.IntVal(v)
                if not z3.is_int(v):
                    if len(e.elts) == 2 and isinstance(v, Tok):
                        break
                    raise Unsupported("tuple element %s" % ast.unparse(x))
                segs.append(v)
            else:
                return Tok("coords", segs=tuple(segs))
            # a (coordinates, index) pair
            vals = [self.ev(x, env, pc) for x in e.elts]
            return Tok("pair", a=vals[0], b=vals[1])
        if isinstance(e, ast.BinOp) and isinstance(e.op, ast.Add):
            l, r = self.ev(e.left, env, pc), self.ev(e.right, env, pc)
            if isinstance(l, Tok) and isinstance(r, Tok) and l.kind == r.kind == "coords":
                return Tok("coords", segs=l.segs + r.segs)
            if (z3.is_int(l) or (isinstance(l, int) and not isinstance(l, bool))) and (z3.is_int(r) or (isinstance(r, int) and not isinstance(r, bool))):
                return l + r
            raise Unsupported(ast.unparse(e))
        if isinstance(e, ast.Subscript):
            o = self.ev(e.value, env, pc)
            sl = e.slice
            idx = None if isinstance(sl, ast.Slice) else self.ev(sl, env, pc)
            if isinstance(o, Tok) and o.kind == "shape":
                if idx == -1 and o.drop == 0:
                    if self.case != "axes":
                        raise Unsupported("shape[-1] of a one-axis index used as an extent")
                    return self.L
                if isinstance(sl, ast.Slice) and sl.lower is None and sl.step is None and self.ev(sl.upper, env, pc) == -1:
                    return Tok("shape", drop=o.drop + 1)
                if isinstance(idx, int) and not isinstance(idx, bool) and idx >= 1 and o.drop == 0 and self.implied(pc, self.m >= idx):
                    ext = z3.Int("E%d" % idx)  # extent of axis idx: the last axis exactly when m == idx
                    self.hyps += [ext >= 0, z3.Implies(self.m == idx, ext == self.L)]
                    return ext
                raise Unsupported(ast.unparse(e))
            if isinstance(o, Tok) and o.kind == "key":
                if idx == -1:
                    return o.last
                if isinstance(sl, ast.Slice) and sl.lower is None and sl.step is None and self.ev(sl.upper, env, pc) == -1:
                    return Tok("subkey", of=o)
                if idx == 0:
                    return o.head
                raise Unsupported(ast.unparse(e))
            if isinstance(o, Tok) and o.kind == "buckets" and z3.is_int(idx):
                return Tok("bucket", at=idx)
            raise Unsupported(ast.unparse(e))
        if isinstance(e, ast.ListComp) and len(e.generators) == 1 and not e.generators[0].ifs and isinstance(e.elt, ast.Dict) and not e.elt.keys:
            it = self.ev(e.generators[0].iter, env, pc)
            if isinstance(it, Tok) and it.kind == "range":
                return Tok("buckets", n=it.n)
            raise Unsupported(ast.unparse(e))
        if isinstance(e, ast.Compare) and len(e.ops) == 1:
            l, r = self.ev(e.left, env, pc), self.ev(e.comparators[0], env, pc)
            t = lambda v: z3.IntVal(v) if isinstance(v, int) else v  # noqa
            if (z3.is_int(l) or isinstance(l, int)) and (z3.is_int(r) or isinstance(r, int)):
                a, b = t(l), t(r)
                for k, v in {ast.Gt: a > b, ast.GtE: a >= b, ast.Lt: a < b, ast.LtE: a <= b, ast.Eq: a == b, ast.NotEq: a != b}.items():
                    if isinstance(e.ops[0], k):
                        return v
            raise Unsupported(ast.unparse(e))
        if isinstance(e, ast.Call) and not e.keywords:
            f = self.ev(e.func, env, pc)
            args = [self.ev(x, env, pc) for x in e.args]
            if isinstance(f, Tok) and f.kind == "builtin":
                if f.name == "len" and len(args) == 1 and isinstance(args[0], Tok) and args[0].kind == "shape":
                    return self.m + 1 - args[0].drop
                if f.name == "range" and len(args) == 1 and z3.is_int(args[0]):
                    return Tok("range", n=args[0])
                if f.name == "enumerate" and len(args) == 1 and isinstance(args[0], Tok) and args[0].kind == "buckets":
                    return Tok("enum-buckets", of=args[0])
                if f.name == "iindex" and len(args) == 3:
                    return Tok("subindex", entries=args[0], common=args[1], shape=args[2])
            if isinstance(f, Tok) and f.kind == "method" and f.name == "items" and not args:
                return Tok("items")
            if isinstance(f, Tok) and f.kind == "method" and f.name == "slices1d" and len(args) <= 1:
                base = args[0] if args else Tok("coords", segs=())
                if not (isinstance(base, Tok) and base.kind == "coords"):
                    raise Unsupported(ast.unparse(e))
                return Tok("ih-gen", of=f.of, base=base)
            raise Unsupported(ast.unparse(e))
        raise Unsupported(ast.unparse(e))

    # ------------------------------------------------------------ statements
    def block(self, stmts, env, pc, pos):
        for st in stmts:
            env = self.stmt(st, env, pc, pos)
            if env is None:
                return None
        return env

    def stmt(self, st, env, pc, pos):
        if isinstance(st, ast.Expr) and isinstance(st.value, ast.Constant):
            return env
        if isinstance(st, ast.Expr) and isinstance(st.value, ast.Yield) and st.value.value is not None:
            v = self.ev(st.value.value, env, pc)
            if isinstance(v, Tok) and v.kind == "pair" and isinstance(v.a, Tok) and v.a.kind == "coords":
                self.yields.append(dict(kind="direct", pc=list(pc), pos=pos, coords=v.a, index=v.b, src=ast.unparse(st)))
                return env
            if isinstance(v, Tok) and v.kind == "ih-item":
                self.yields.append(dict(kind="ih", pc=list(pc), pos=pos, gen=v.gen, src=ast.unparse(st)))
                return env
            raise Unsupported(ast.unparse(st))
        if isinstance(st, ast.Assign) and len(st.targets) == 1:
            t = st.targets[0]
            if isinstance(t, ast.Name):
                env = dict(env)
                env[t.id] = self.ev(st.value, env, pc)
                return env
            if isinstance(t, ast.Subscript):
                tgt = self.ev(t.value, env, pc)
                key = self.ev(t.slice, env, pc)
                val = self.ev(st.value, env, pc)
                k = env.get("!key")
                ok = (isinstance(tgt, Tok) and tgt.kind == "bucket" and k is not None and tgt.at is k.last and isinstance(key, Tok) and key.kind == "subkey"
                      and key.of is k and val is env.get("!rows"))
                self.struct.append(("every-key-is-filed-under-its-last-coordinate-keyed-by-the-rest", bool(ok), ast.unparse(st)))
                return env
            raise Unsupported(ast.unparse(st))
        if isinstance(st, ast.If):
            c = self.ev(st.test, env, pc)
            if self.implied(pc, c):
                return self.block(st.body, env, pc, pos)
            if self.implied(pc, z3.Not(c)):
                return self.block(st.orelse, env, pc, pos)
            raise Unsupported("condition %s is not decided by the case" % ast.unparse(st.test))
        if isinstance(st, ast.For) and not st.orelse:
            it = self.ev(st.iter, env, pc)
            assigned = {n.id for b in st.body for n in ast.walk(b) if isinstance(n, ast.Name) and isinstance(n.ctx, ast.Store)}
            targets = {n.id for n in ast.walk(st.target) if isinstance(n, ast.Name)}
            if (assigned - targets) & set(env):
                raise Unsupported("loop body rebinds %s" % sorted((assigned - targets) & set(env)))
            two = isinstance(st.target, ast.Tuple) and len(st.target.elts) == 2 and all(isinstance(x, ast.Name) for x in st.target.elts)
            if isinstance(it, Tok) and it.kind == "items" and two:
                if pos is not None or env.get("!key") is not None:
                    raise Unsupported("nested loop over the entries")
                key = Tok("key", head=z3.Int("k0!%d" % next(_ids)), last=z3.Int("l!%d" % next(_ids)))
                rows = Tok("rows", of=key)
                env2 = dict(env)
                env2.update({"!key": key, "!rows": rows, st.target.elts[0].id: key, st.target.elts[1].id: rows})
                n0 = len(self.yields)
                self.block(st.body, env2, pc, pos)
                if len(self.yields) != n0:
                    raise Unsupported("yield inside the loop over the entries")
                return env
            if isinstance(it, Tok) and it.kind == "enum-buckets" and two:
                if pos is not None:
                    raise Unsupported("nested loop over the buckets")
                c = z3.Int("c!%d" % next(_ids))
                env2 = dict(env)
                env2.update({st.target.elts[0].id: c, st.target.elts[1].id: Tok("bucket", at=c)})
                self.block(st.body, env2, pc + [c >= 0, c < it.of.n], c)
                self.buckets_n = it.of.n
                return env
            if isinstance(it, Tok) and it.kind == "ih-gen" and isinstance(st.target, ast.Name):
                env2 = dict(env)
                env2[st.target.id] = Tok("ih-item", gen=it)
                self.block(st.body, env2, pc, pos)
                return env
            raise Unsupported("loop %s" % ast.unparse(st).splitlines()[0])
        raise Unsupported(ast.unparse(st).splitlines()[0])

    def run(self):
        self.block(self.fn.body, dict(self.env0), [], None)
        return self


def find_slices1d(tree):
    for n in tree.body:
        if isinstance(n, ast.ClassDef) and n.name == "iindex":
            for m in n.body:
                if isinstance(m, ast.FunctionDef) and m.name == "slices1d":
                    return m
    raise Unsupported("iindex.slices1d not found")


def verify_slices1d(tree, module="iindexes.iindex"):
    fn = find_slices1d(tree)
    if not any(isinstance(n, (ast.Yield, ast.YieldFrom)) for n in ast.walk(fn)):
        raise Unsupported("slices1d is no longer a generator")
    obls = []
    tl = z3.Int("tl")
    validmid = z3.Bool("validmid")  # every coordinate of TMID lies in its axis
    q = "%s.slices1d/" % module
    for case in ("axes", "flat"):
        tag = "[%s]" % ("one-or-more-extra-axes" if case == "axes" else "no-extra-axis")
        X = SlExec(fn, case).run()
        hyps = list(X.hyps)
        for name, ok, text in X.struct:
            obls.append(Obl(q + name + tag, "post", hyps, z3.BoolVal(ok), {"site": text}))
        if case == "flat":
            # target T = (): exactly one yield, coordinates base_coords, the index itself
            ds = [y for y in X.yields if y["kind"] == "direct" and y["pos"] is None]
            ok = len(X.yields) == 1 and len(ds) == 1 and ds[0]["coords"].segs == (("B",),) and isinstance(ds[0]["index"], Tok) and ds[0]["index"].kind == "self"
            obls.append(Obl(q + "post-yields-exactly-(base_coords, self)" + tag, "post", hyps, z3.BoolVal(bool(ok)), {"yields": [y["src"] for y in X.yields]}))
            obls.append(Obl(q + "canary" + tag, "canary", hyps, z3.BoolVal(False)))
            continue
        total_loop, total_out = [], []
        for i, y in enumerate(X.yields, 1):
            name = "%syield@%d%s" % (q, i, tag)
            if y["kind"] != "ih":
                obls.append(Obl(name + "/yields-only-what-the-recursive-call-yields", "post", hyps + y["pc"], z3.BoolVal(False), {"site": y["src"]}))
                continue
            g = y["gen"]
            sub = g.of
            # call-requires of the induction hypothesis: a sub-index built from ONE bucket, X's common, X's shape without its last axis
            c = y["pos"]
            shape_ok = (isinstance(sub, Tok) and sub.kind == "subindex" and isinstance(sub.entries, Tok) and sub.entries.kind == "bucket"
                        and isinstance(sub.shape, Tok) and sub.shape.kind == "shape" and sub.shape.drop == 1)
            obls.append(Obl(name + "/call-requires[recursion on the index of one bucket with the last axis dropped]", "call-requires", hyps + y["pc"], z3.BoolVal(bool(shape_ok)), {"site": y["src"]}))
            obls.append(Obl(name + "/post-slice-keeps-the-common-value", "post", hyps + y["pc"], z3.BoolVal(bool(shape_ok and isinstance(sub.common, Tok) and sub.common.kind == "common")), {"site": y["src"]}))
            if not shape_ok:
                continue
            at = sub.entries.at
            # IH: yields TMID + base' once iff TMID is valid in shape[1:-1]; base' must be (at,) + base_coords
            segs = g.base.segs
            coords_ok = len(segs) == 2 and not isinstance(segs[0], tuple) and isinstance(segs[1], tuple) and segs[1] == ("B",)
            obls.append(Obl(name + "/post-coordinates-are-axis-ordered[inner axes, this axis, base_coords]", "post", hyps + y["pc"], z3.BoolVal(bool(coords_ok)), {"site": y["src"]}))
            if not coords_ok:
                continue
            match = segs[0] == tl  # T + base == TMID + (label,) + base
            # the slice delivered under label `segs[0]` holds (k0,) iff bucket `at` has (k0,)+TMID iff X has (k0,)+TMID+(at,):
            obls.append(Obl(name + "/post-slice-is-the-content-at-its-own-coordinates", "post", hyps + y["pc"] + [match], at == tl, {"site": y["src"]}))
            cnt = z3.If(z3.And(*(y["pc"] + [match, validmid])), 1, 0)
            if c is not None:
                obls.append(Obl(name + "/only-own-position-contributes", "post", hyps + [c >= 0, c < X.L, c != tl], cnt == 0, {"site": y["src"]}))
                total_loop.append(z3.substitute(cnt, (c, tl)))
            else:
                total_out.append(cnt)
        n_b = getattr(X, "buckets_n", None)
        obls.append(Obl(q + "post-one-bucket-per-position-of-the-last-axis" + tag, "post", hyps, (n_b == X.L) if n_b is not None else z3.BoolVal(False), {}))
        total = z3.Sum([z3.IntVal(0)] + total_out) + z3.If(z3.And(tl >= 0, tl < X.L), z3.Sum([z3.IntVal(0)] + total_loop), 0)
        expected = z3.If(z3.And(validmid, tl >= 0, tl < X.L), 1, 0)
        obls.append(Obl(q + "post-every-coordinate-tuple-in-range-exactly-once-and-no-other" + tag, "post", hyps, total == expected, {"yields": len(X.yields)}))
        obls.append(Obl(q + "canary" + tag, "canary", hyps + [expected == 1], z3.BoolVal(False)))
    return obls
