"""catii contract verification machinery (see /verif/DESIGN.md)."""
