#!/usr/bin/env bash
# Build /verif/.venv offline (idempotent, taken under a lock because several
# checks may start at once after a fresh restore).
#
# The venv is CPython 3.12 (the interpreter /venv is built from) with the
# solver / contract wheels from the offline wheelhouse, plus a .pth that adds
# /venv's site-packages so that the same interpreter sees NumPy, Cython and
# pytest exactly as the repository's own test-suite does.
set -euo pipefail
cd "$(dirname "$0")"
export PIP_NO_INDEX=1 PIP_DISABLE_PIP_VERSION_CHECK=1
VENV="$PWD/.venv"
STAMP="$VENV/.ok-v3"
mkdir -p "$PWD/.cache"
exec 9>"$PWD/.cache/setup.lock"
flock 9
if [ -f "$STAMP" ]; then exit 0; fi
rm -rf "$VENV"
PY=/root/.pyenv/versions/3.12.1/bin/python3.12
if [ ! -x "$PY" ]; then PY="$(readlink -f /venv/bin/python)"; fi
"$PY" -m venv "$VENV"
"$VENV/bin/pip" install -q --no-index --find-links /opt/veriftools/wheels \
    z3-solver cvc5 icontract deal crosshair-tool jsonschema >/dev/null
SP="$("$VENV/bin/python" -c 'import sysconfig; print(sysconfig.get_paths()["purelib"])')"
echo "import site; site.addsitedir('/venv/lib/python3.12/site-packages')" > "$SP/zz_repo_venv.pth"
"$VENV/bin/python" - <<'EOF'
import z3, cvc5, numpy, Cython, icontract, jsonschema
print("verif venv ok: z3", z3.get_version_string(), "numpy", numpy.__version__, "Cython", Cython.__version__)
EOF
touch "$STAMP"
